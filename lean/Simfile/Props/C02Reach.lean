/-
C02 (growth) — reachability: the editing API cannot leave the round-trip domain `C02.DomSSC` as long as the caller meets the
obligations the property's quantifier states: keys are upper-case strings other than NOTEDATA (on both levels); the note data of a
chart is never deleted and is only ever assigned a string (the keys NOTES and NOTES2); charts put into the list are themselves
in the domain. Property theorems only; helper lemmas live in Simfile/Lemmas/EditReachSSC.lean.
-/
import Simfile.Lemmas.EditReachSSC
namespace Simfile.C02Reach
open Simfile

/-- the caller's obligations for one edit -/
def EditOK : SSCEdit → Prop
  | .setKey k _ => upper k = k ∧ k ≠ kNOTEDATA
  | .delKey _ => True
  | .setAttr _ _ => True
  | .delAttr _ => True
  | .appendChart c => C02.DomSSCChart c
  | .insertChart _ c => C02.DomSSCChart c
  | .setChart _ c => C02.DomSSCChart c
  | .popChart _ => True
  | .reverseCharts => True
  | .clearCharts => True
  | .chartSetKey _ k v => upper k = k ∧ k ≠ kNOTEDATA ∧ ((k = kNOTES ∨ k = kNOTES2) → v ≠ none)
  | .chartDelKey _ k => k ≠ kNOTES ∧ k ≠ kNOTES2
  | .chartSetAttr _ _ _ => True               -- attributes resolve to upper-case keys of the class's table and assign strings

private theorem editOK_iff (e : SSCEdit) : EditOK e ↔ EditOKSSCL e := by cases e <;> exact Iff.rfl

/-- 1. one edit keeps the object in the domain -/
theorem edit_preserves_dom (s : SSCSimfile) (e : SSCEdit) (h : C02.DomSSC s) (he : EditOK e) : C02.DomSSC (applyEditSSC s e) :=
  applyEditSSC_dom s e h ((editOK_iff e).mp he)

/-- 2. every object reachable by a history of edits from an object in the domain is in the domain -/
theorem reachable_in_dom (s : SSCSimfile) (es : List SSCEdit) (h : C02.DomSSC s) (hes : ∀ e ∈ es, EditOK e) :
    C02.DomSSC (applyEditsSSC s es) :=
  applyEditsSSC_dom s es h (fun e he => (editOK_iff e).mp (hes e he))

/-- 3. in particular from `blank()` (with its blank chart) -/
theorem reachable_from_blank (es : List SSCEdit) (hes : ∀ e ∈ es, EditOK e) : C02.DomSSC (applyEditsSSC C02.blankSSC es) :=
  reachable_in_dom _ es (by decide +kernel) hes

/-- 4. hence the round trip of C02 holds after any such history: loading the parameters of the serialized object gives the
object back with every chart's note data moved last -/
theorem roundtrip_after_edits (s : SSCSimfile) (es : List SSCEdit) (h : C02.DomSSC s) (hes : ∀ e ∈ es, EditOK e) :
    (serSSC (applyEditsSSC s es)).map (fun d => loadSSC (paramsOf d)) = .ok (applyEditsSSC s es).notesLast :=
  C02.roundtrip_params _ (reachable_in_dom s es h hes)

/-- the obligations are needed: deleting a chart's note data leaves the domain -/
theorem deleting_notes_leaves_dom :
    ¬ C02.DomSSC (applyEditSSC ⟨[], [⟨[(kNOTES, some ['0'])]⟩]⟩ (.chartDelKey 0 kNOTES)) :=
  del_notes_not_dom

end Simfile.C02Reach
