/-
C11 (growth) — the timing engine under floating-point arithmetic. The exact model (Props/C11.lean) replaces Python's
floats by rationals; here every float operation of `time_until`, `advance` and `time_at` is a rounding `fl`, and under the
standard model of floating-point arithmetic (|fl x − x| ≤ u·|x|, the law IEEE-754 round-to-nearest satisfies with
u = 2⁻⁵³ in the absence of overflow and underflow) the engine's answer differs from the exact timeline by at most the
computable bound `errTimeAt u td beat tag`.
Property theorems only; helper lemmas live in Simfile/Lemmas/EngineF*.lean.
-/
import Simfile.Lemmas.EngineFMain
namespace Simfile.C11F
open Simfile

/-- the standard model of floating-point arithmetic for the rounding operator -/
def StdModel (R : Fl) (u : Rat) : Prop := ∀ x : Rat, |R.fl x - x| ≤ u * |x|

/-- 1. forward error of `time_at`: for all timing data in the domain, all beats and tags, and every rounding operator
satisfying the standard model with 0 ≤ u < 1 -/
theorem time_error (R : Fl) (u : Rat) (hu0 : 0 ≤ u) (hu1 : u < 1) (hR : StdModel R u)
    (td : TimingData) (h : C11.Dom td) (b : Rat) (g : Tag) :
    |timeAtF R td b g - timeAt td b g| ≤ errTimeAt u td b g :=
  timeAtF_error R u hu0 hu1 hR td h b g

/-- 2. with exact arithmetic (fl = id) the float engine *is* the exact engine -/
theorem exact_when_no_rounding (td : TimingData) (b : Rat) (g : Tag) : timeAtF ⟨id⟩ td b g = timeAt td b g :=
  timeAtF_id td b g

/-- 3. the bound vanishes with u -/
theorem bound_zero (td : TimingData) (b : Rat) (g : Tag) : errTimeAt 0 td b g = 0 :=
  errTimeAt_zero td b g

/-- 4. the bound is non-negative on the domain -/
theorem bound_nonneg (u : Rat) (hu0 : 0 ≤ u) (hu1 : u < 1) (td : TimingData) (h : C11.Dom td) (b : Rat) (g : Tag) :
    0 ≤ errTimeAt u td b g :=
  errTimeAt_nonneg u hu0 hu1 td h b g

/-! ### non-vacuity and size of the bound: a stop on a delay inside a warp that starts on beat 0, BPM change inside,
u = 2⁻⁵³ — the deviation is below 10⁻¹² s at beat 100 -/

def sampleTD : TimingData :=
  { bpms := [(0, 120), (1, 240)], stops := [(2, 1/2)], delays := [(2, 1/4)], warps := [(0, 3)], offset := -9/1000 }

example : C11.Dom sampleTD := by
  have g0 : onGrid 0 := ⟨0, by norm_num⟩
  have g1 : onGrid 1 := ⟨48, by rw [ticks_eq]; norm_num⟩
  have g2 : onGrid 2 := ⟨96, by rw [ticks_eq]; norm_num⟩
  have hr : roundToTick 3 = 3 := roundToTick_three
  constructor
  · simp [sampleTD]
  · simp [sampleTD]
  · intro e he; simp [sampleTD] at he; rcases he with rfl | rfl <;> norm_num
  · simp [sampleTD]
  · intro e he; simp [sampleTD] at he; rcases he with rfl | rfl
    · exact ⟨le_refl _, g0⟩
    · exact ⟨by norm_num, g1⟩
  · intro e he; simp [sampleTD] at he; subst he; norm_num
  · simp [sampleTD]
  · intro e he; simp [sampleTD] at he; subst he; exact ⟨by norm_num, g2⟩
  · intro e he; simp [sampleTD] at he; subst he; norm_num
  · simp [sampleTD]
  · intro e he; simp [sampleTD] at he; subst he; exact ⟨by norm_num, g2⟩
  · intro e he; simp [sampleTD] at he; subst he; rw [hr]; norm_num
  · simp [sampleTD]
  · intro e he; simp [sampleTD] at he; subst he; exact ⟨le_refl _, g0⟩

example : errTimeAt (1 / 9007199254740992) sampleTD 100 .stop < 1 / 1000000000000 := by
  have hev : events sampleTD = _ := events_sampleF
  simp only [errTimeAt, mkEngine, errStates, states, hev]
  decide +kernel

end Simfile.C11F
