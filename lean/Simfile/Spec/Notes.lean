/-
Generative description of well-formed note data (C07, C08): a chart is players → measures → rows →
cells, decorated with blanks; `render` writes it, `notesOf` says which notes it denotes.
-/
import Simfile.Model.Notes
namespace Simfile.Spec
open Simfile

structure Cell where
  ch : Char
  ks : Option Nat := none
deriving Repr, DecidableEq

structure DRow where
  cells : List Cell
  lead : Str := []
  trail : Str := []
  eol : Str := ['\n']
deriving Repr, DecidableEq

structure DMeasure where
  pre : Str := []
  rows : List DRow
  post : Str := []
deriving Repr, DecidableEq

/-- players, each a list of measures -/
abbrev DChart := List (List DMeasure)

def cellStr (c : Cell) : Str :=
  [c.ch] ++ (match c.ks with | some k => ['['] ++ natDigits k ++ [']'] | none => [])

def renderRow (r : DRow) : Str := r.lead ++ (r.cells.map cellStr).flatten ++ r.trail ++ r.eol
def renderMeasure (m : DMeasure) : Str := m.pre ++ (m.rows.map renderRow).flatten ++ m.post
def renderPlayer (ms : List DMeasure) : Str := joinWith [','] (ms.map renderMeasure)
def render (c : DChart) : Str := joinWith ['&'] (c.map renderPlayer)

def cols (c : DChart) : Nat :=
  match c with
  | (m :: _) :: _ => (match m.rows with | r :: _ => r.cells.length | [] => 0)
  | _ => 0

def notesOfRow (p m sub l : Nat) (r : DRow) : List Note :=
  (enumFrom 0 r.cells).filterMap fun (c, cell) =>
    if cell.ch = '0' then none
    else some { beat := ((4 * m * sub + 4 * l : Nat) : Rat) / (sub : Rat), column := c, ntype := cell.ch,
                player := p, keysound := cell.ks }

def notesOfMeasure (p m : Nat) (ms : DMeasure) : List Note :=
  ((enumFrom 0 ms.rows).map fun (l, r) => notesOfRow p m ms.rows.length l r).flatten

def notesOf (c : DChart) : List Note :=
  ((enumFrom 0 c).map fun (p, ms) =>
    ((enumFrom 0 ms).map fun (m, me) => notesOfMeasure p m me).flatten).flatten

def isInlineBlank (c : Char) : Bool := pyIsSpace c && !pyIsLineBreak c
def isEol (s : Str) : Bool := s = ['\n'] || s = ['\r', '\n']

/-- well-formedness of a decorated chart (decidable) -/
def wfRow (n : Nat) (last : Bool) (r : DRow) : Bool :=
  r.cells.length = n && r.lead.all isInlineBlank && r.trail.all isInlineBlank &&
  (isEol r.eol || (last && r.eol = [])) &&
  r.cells.all fun c => (c.ch = '0' && c.ks = none) || (c.ch ≠ '0' && isNoteChar c.ch)

def wfRows (n : Nat) : List DRow → Bool
  | [] => false
  | [r] => wfRow n true r
  | r :: rest => wfRow n false r && wfRows n rest

def wfMeasure (n : Nat) (m : DMeasure) : Bool :=
  m.pre.all pyIsSpace && m.post.all pyIsSpace && wfRows n m.rows

def WF (c : DChart) : Bool :=
  1 ≤ cols c && c.length ≥ 1 && c.all fun ms => ms.length ≥ 1 && ms.all (wfMeasure (cols c))

end Simfile.Spec
