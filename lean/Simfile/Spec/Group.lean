/-
Declarative specification of group_notes (C09): classification of every note of the filtered stream
by its column neighbours, no buffer, no held-columns dictionary.
-/
import Simfile.Model.Group
namespace Simfile.Spec
open Simfile

inductive Cls
  | joined (tailBeat : Rat)   -- a head whose next note in its column is a tail
  | orphanHead                -- a head interrupted by a non-tail, or never closed
  | consumed                  -- a tail whose previous note in its column is a head
  | orphanTail                -- a tail with no open head
  | plain
deriving Repr, DecidableEq

/-- classification of `n`, given the notes before it (nearest first) and after it -/
def classify (before : List Note) (n : Note) (after : List Note) : Cls :=
  if isHead n.ntype then
    match after.find? (·.column = n.column) with
    | some t => if t.ntype = cTAIL then .joined t.beat else .orphanHead
    | none => .orphanHead
  else if n.ntype = cTAIL then
    match before.find? (·.column = n.column) with
    | some h => if isHead h.ntype then .consumed else .orphanTail
    | none => .orphanTail
  else .plain

/-- every note of the stream with its class, in order -/
def classifyAll : List Note → List Note → List (Note × Cls)
  | _, [] => []
  | before, n :: after => (n, classify before n after) :: classifyAll (n :: before) after

def image (o : GOpts) : Note × Cls → List GNote
  | (n, .joined tb) => [.withTail n tb]
  | (n, .plain) => [.plain n]
  | (_, .consumed) => []
  | (n, .orphanHead) => if o.orphanHead = .keep then [.plain n] else []
  | (n, .orphanTail) => if o.orphanTail = .keep then [.plain n] else []

def joinSpec (o : GOpts) (F : List Note) : Except GErr (List GNote) :=
  let cs := classifyAll [] F
  if (o.orphanHead = .raise ∧ cs.any (·.2 = .orphanHead)) ∨ (o.orphanTail = .raise ∧ cs.any (·.2 = .orphanTail))
  then .error .orphaned
  else .ok (cs.flatMap (image o))

def groupSpec (o : GOpts) (notes : List Note) : Except GErr (List (List GNote)) := do
  let F := notes.filter fun n => o.incl.contains n.ntype
  let stream ← if o.join then joinSpec o F else pure (F.map GNote.plain)
  pure ((groupRuns GNote.beat stream).flatMap fun (_, row) => addRow o.sameBeat row)

/-- number of beats carrying at least `k` notes of the included types -/
def beatsWithAtLeast (notes : List Note) (incl : List Char) (k : Nat) : Nat :=
  let F := notes.filter fun n => incl.contains n.ntype
  ((F.map (·.beat)).eraseDups.filter fun b => k ≤ (F.filter (·.beat = b)).length).length

/-- number of items joining emits for {head type, TAIL} -/
def holdsSpec (notes : List Note) (head : Char) (oh ot : Orphan) : Except GErr Nat := do
  let o : GOpts := { incl := [head, cTAIL], join := true, orphanHead := oh, orphanTail := ot }
  let s ← joinSpec o (notes.filter fun n => o.incl.contains n.ntype)
  pure s.length

/-! ungroup: which notes a group/ungroup round trip must return -/

/-- notes of the included types minus dropped orphans (C10) -/
def survivors (o : GOpts) (notes : List Note) : List Note :=
  let F := notes.filter fun n => o.incl.contains n.ntype
  if !o.join then F
  else (classifyAll [] F).filterMap fun (n, c) =>
    match c with
    | .orphanHead => if o.orphanHead = .drop then none else some n
    | .orphanTail => if o.orphanTail = .drop then none else some n
    | _ => some n

end Simfile.Spec
