/-
Declarative timeline (C11, C13): no state machine, no coalescing, no bisect.
"minus the offset, plus sixty seconds over the BPM in force for every beat that elapses outside
warp segments, plus every pause already passed, the delay counting from DELAY_END on and the stop
from STOP_END".
-/
import Simfile.Model.Engine
namespace Simfile.Spec
open Simfile

/-- x lies in the union of the warp segments [beat, beat + round_to_tick(length)) -/
def inWarp (td : TimingData) (x : Rat) : Bool :=
  td.warps.any fun w => w.1 ≤ x && x < w.1 + roundToTick w.2

/-- value of the last BPM change at or before x (the first BPM for x before every change) -/
def bpmOn (td : TimingData) (x : Rat) : Rat :=
  td.bpms.foldl (fun cur e => if e.1 ≤ x then e.2 else cur) (td.bpms.headD (0, 0)).2

def keyLE (a b : Rat × Tag) : Bool := a.1 < b.1 || (a.1 = b.1 && a.2.val ≤ b.2.val)

/-- total length of the pauses already passed at key (b, g) -/
def paused (td : TimingData) (b : Rat) (g : Tag) : Rat :=
  (td.delays.foldl (fun acc d => if keyLE (d.1, .delayEnd) (b, g) then acc + d.2 else acc) 0) +
  (td.stops.foldl (fun acc s => if keyLE (s.1, .stopEnd) (b, g) then acc + s.2 else acc) 0)

/-- seconds taken by the k-th tick [k/48, (k+1)/48) -/
def tickTime (td : TimingData) (k : Nat) : Rat :=
  let x : Rat := (k : Rat) / (ticks : Rat)
  if inWarp td x then 0 else (60 / (ticks : Rat)) / bpmOn td x

def tickSum (td : TimingData) : Nat → Rat
  | 0 => 0
  | k + 1 => tickSum td k + tickTime td k

def timeSpec (td : TimingData) (b : Rat) (g : Tag) : Rat :=
  -td.offset + paused td b g +
  (if b < 0 then b * 60 / (td.bpms.headD (0, 0)).2
   else
     let k := (b * (ticks : Rat)).floor.toNat
     let x : Rat := (k : Rat) / (ticks : Rat)
     tickSum td k + (if inWarp td x then 0 else (b - x) * 60 / bpmOn td x))

/-- C13: unhittable ⇔ inside the warp union and no stop or delay on that very beat -/
def hittableSpec (td : TimingData) (b : Rat) : Bool :=
  !(inWarp td b && !(td.stops.any (·.1 = b) || td.delays.any (·.1 = b)))

def timeNotesSpec (td : TimingData) (opt : Unhittable) (notes : List Note) : List (Rat × Note) :=
  notes.filterMap fun n =>
    let t := timeSpec td n.beat .stop
    if hittableSpec td n.beat then some (t, n)
    else match opt with
      | .keepNote => some (t, n)
      | .dropNote => none
      | .tapToFake => if n.ntype = cTAP then some (t, { n with ntype := cFAKE }) else none

end Simfile.Spec
