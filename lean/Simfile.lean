-- Root of the `Simfile` library: generated tables, executable models, specs, lemmas, property theorems.
import Simfile.Gen.Tables
import Simfile.Model.Str
import Simfile.Model.Beat
import Simfile.Model.Objects
import Simfile.Model.Notes
import Simfile.Model.Group
import Simfile.Model.Engine
import Simfile.Spec.Timeline
import Simfile.Spec.Notes
import Simfile.Spec.Group
import Simfile.Model.Load
import Simfile.Model.Msd
import Simfile.Model.Source
import Simfile.Model.Convert
import Simfile.Model.Views
import Simfile.Driver
