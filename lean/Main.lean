/- Entry point of the line-protocol driver: `lake env lean --run Main.lean < requests`.
All logic lives in the compiled module Simfile.Driver (models and specs only, no proofs). -/
import Simfile.Driver
def main : IO Unit := driverMain
